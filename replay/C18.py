"""Replay of a C18 counterexample with real libraries and real (scripted) jobs. Exit 0 + 'REPRODUCED' on a violation."""
import sys, json, os, tempfile, logging
os.environ.setdefault("MOLLI_HOME", tempfile.mkdtemp())
import molli as ml
from molli.pipeline.job import Job, JobInput, JobOutput, jobmap

doc = json.load(open(sys.argv[1]))
w = doc["witness"]
d = tempfile.mkdtemp()
os.chdir(d)
logging.disable(logging.CRITICAL)
bad = []
COUNT = os.path.join(d, "count")
os.mkdir(COUNT)


class Drv:
    executable = "sh"
    nprocs = 1

    @Job(return_files=("res.txt",)).prep
    def task(self, m, fail=False):
        cmd = f"sh -c 'echo run >> {COUNT}/{m.name}; echo {m.name} > res.txt; exit {1 if fail else 0}'"
        return JobInput(m.name, commands=[(cmd, "c")], return_files=self.return_files)

    @task.post
    def task(self, out, m, **kw):
        return ml.Molecule(m, name=m.name)

    @Job(return_files=("res.txt",)).prep
    def ctask(self, c, tag="t0"):
        # one sub-job per conformer (vectorised below); the conformer number is part of the command, hence of the input hash
        cmd = f"sh -c 'echo run >> {COUNT}/{c.name}_{c._conf_id}; echo {tag} > res.txt; exit 0'"
        return JobInput(f"{c.name}_{c._conf_id}", commands=[(cmd, "c")], return_files=self.return_files)

    @ctask.post
    def ctask(self, out, c, **kw):
        return out.files["res.txt"].decode().strip() if isinstance(out.files["res.txt"], bytes) else str(out.files["res.txt"]).strip()

    vtask = Job.vectorize(ctask)

    @vtask.reduce
    def vtask(self, results, ens, **kw):
        return list(results)


def lib(path, names):
    L = ml.MoleculeLibrary(path, readonly=False, overwrite=True)
    with L.writing():
        for n in names:
            L[n] = ml.Molecule(ml.Molecule.load_mol2(ml.files.benzene_mol2), name=n)
    return L


def runs(n):
    p = os.path.join(COUNT, n)
    return len(open(p).read().split()) if os.path.exists(p) else 0


drv = Drv()
src = lib(os.path.join(d, "src.mlib"), ["a", "b"])
dst = lib(os.path.join(d, "dst.mlib"), ["only_in_dst"])
try:
    jobmap(drv.task, src, dst, cache_dir=os.path.join(d, "cache"), scratch_dir=os.path.join(d, "scr"), kwargs={"fail": False})
except BaseException as e:
    bad.append(f"jobmap with a destination-only key raised {type(e).__name__}: {e}")
with dst.reading():
    ks = sorted(dst.keys())
if not bad and ks != ["a", "b", "only_in_dst"]:
    bad.append(f"destination keys after the run: {ks}")
# a failing job must not produce a destination entry
src2 = lib(os.path.join(d, "src2.mlib"), ["x"])
dst2 = lib(os.path.join(d, "dst2.mlib"), [])
try:
    jobmap(drv.task, src2, dst2, cache_dir=os.path.join(d, "cache2"), scratch_dir=os.path.join(d, "scr"), kwargs={"fail": True})
    with dst2.reading():
        if "x" in dst2.keys():
            bad.append("the result of a failed run (exit code 1) was stored in the destination")
    # rerun after the failure with a succeeding job: executes exactly once more, then is reused
    jobmap(drv.task, src2, dst2, cache_dir=os.path.join(d, "cache2"), scratch_dir=os.path.join(d, "scr"), kwargs={"fail": False})
    n1 = runs("x")
    with dst2.reading():
        if "x" not in dst2.keys():
            bad.append("rerun after the failure did not store the result")
    jobmap(drv.task, src2, dst2, cache_dir=os.path.join(d, "cache2"), scratch_dir=os.path.join(d, "scr"), kwargs={"fail": False})
    if runs("x") != n1:
        bad.append("an item already in the destination was executed again")
except BaseException as e:
    bad.append(f"jobmap raised {type(e).__name__}: {e}")
# strict_hash=False relaxes the hash comparison only: a failed run is still not a result
try:
    src5 = lib(os.path.join(d, "src5.mlib"), ["z"])
    dst5 = lib(os.path.join(d, "dst5.mlib"), [])
    jobmap(drv.task, src5, dst5, cache_dir=os.path.join(d, "cache5"), scratch_dir=os.path.join(d, "scr"), kwargs={"fail": True}, strict_hash=False)
    with dst5.reading():
        if "z" in dst5.keys():
            bad.append("with strict_hash=False the result of a FAILED run (exit code 1, return file left behind) was stored in the destination")
except BaseException as e:
    bad.append(f"strict_hash=False scenario raised {type(e).__name__}: {e}")
# cached outputs: reused only when produced from the same input with exit code 0
try:
    src3 = lib(os.path.join(d, "src3.mlib"), ["y"])
    dstA = lib(os.path.join(d, "dstA.mlib"), [])
    cache3 = os.path.join(d, "cache3")
    jobmap(drv.task, src3, dstA, cache_dir=cache3, scratch_dir=os.path.join(d, "scr"), kwargs={"fail": False})
    n0 = runs("y")
    if n0 != 1:
        bad.append(f"first run executed the job {n0} times")
    dstB = lib(os.path.join(d, "dstB.mlib"), [])
    jobmap(drv.task, src3, dstB, cache_dir=cache3, scratch_dir=os.path.join(d, "scr"), kwargs={"fail": False})
    if runs("y") != n0:
        bad.append("a valid cached output (same input, exit 0) was not reused: the job ran again")
    with dstB.reading():
        if "y" not in dstB.keys():
            bad.append("a valid cached output was not turned into a destination entry")
    # same key, different input (the source object changed): the cached output is foreign and must not be used
    src3b = ml.MoleculeLibrary(os.path.join(d, "src3b.mlib"), readonly=False, overwrite=True)
    with src3b.writing():
        m = ml.Molecule(ml.Molecule.load_mol2(ml.files.benzene_mol2), name="y")
        src3b["y"] = m

    class Drv2(Drv):
        @Job(return_files=("res.txt",)).prep
        def task(self, m, fail=False):
            cmd = f"sh -c 'echo run >> {COUNT}/{m.name}; echo other-input > res.txt; exit 0'"
            return JobInput(m.name, commands=[(cmd, "c")], return_files=self.return_files)

        @task.post
        def task(self, out, m, **kw):
            return ml.Molecule(m, name=m.name)
    dstC = lib(os.path.join(d, "dstC.mlib"), [])
    jobmap(Drv2().task, src3b, dstC, cache_dir=cache3, scratch_dir=os.path.join(d, "scr"))
    if runs("y") != n0 + 1:
        bad.append(f"a cached output produced from a DIFFERENT input (hash mismatch) was reused instead of recomputed (runs: {runs('y')}, expected {n0 + 1})")
except BaseException as e:
    bad.append(f"cache scenario raised {type(e).__name__}: {e}")
# vectorised job with a partly warm cache
try:
    ens = ml.ConformerEnsemble.load_mol2(ml.files.pentane_confs_mol2)
    ens = ml.ConformerEnsemble(ens, name="pent")
    csrc = ml.ConformerLibrary(os.path.join(d, "csrc.clib"), readonly=False, overwrite=True)
    with csrc.writing():
        csrc["pent"] = ens
    nconf = ens.n_conformers

    class Store(dict):
        """a destination collection for the plain results of the vectorised job"""
    cdst1 = ml.storage.Collection(os.path.join(d, "cdst1.ukv"), ml.storage.UkvCollectionBackend, value_encoder=lambda v: repr(v).encode(),
                                  value_decoder=lambda b: eval(b.decode()), readonly=False, overwrite=True)
    ccache = os.path.join(d, "ccache")
    jobmap(drv.vtask, csrc, cdst1, cache_dir=ccache, scratch_dir=os.path.join(d, "scr"))
    tot1 = sum(runs(f"pent_{i}") for i in range(nconf))
    with cdst1.reading():
        if "pent" not in cdst1.keys():
            bad.append("vectorised job: first run did not store the item")
        elif list(cdst1["pent"]) != ["t0"] * nconf:
            bad.append(f"vectorised job: stored {cdst1['pent']!r} for {nconf} conformers")
    if tot1 != nconf:
        bad.append(f"vectorised job: {tot1} executions for {nconf} conformers")
    # drop one cached sub-job output, use a fresh destination: exactly that sub-job is executed again, the item is stored
    os.remove(os.path.join(ccache, "output", "pent.1.out"))
    cdst2 = ml.storage.Collection(os.path.join(d, "cdst2.ukv"), ml.storage.UkvCollectionBackend, value_encoder=lambda v: repr(v).encode(),
                                  value_decoder=lambda b: eval(b.decode()), readonly=False, overwrite=True)
    jobmap(drv.vtask, csrc, cdst2, cache_dir=ccache, scratch_dir=os.path.join(d, "scr"))
    tot2 = sum(runs(f"pent_{i}") for i in range(nconf))
    if tot2 != nconf + 1 or runs("pent_1") != 2:
        bad.append(f"vectorised job with a partly warm cache: {tot2 - tot1} executions, expected exactly the 1 missing sub-job")
    with cdst2.reading():
        if "pent" not in cdst2.keys():
            bad.append("vectorised job with a partly warm cache: every sub-job output is valid but the item was not stored")
        elif list(cdst2["pent"]) != ["t0"] * nconf:
            bad.append(f"vectorised job with a partly warm cache: stored {cdst2['pent']!r}")
except BaseException as e:
    bad.append(f"vectorised scenario raised {type(e).__name__}: {e}")
# directory-backed collections: dotted keys are different keys
try:
    from molli.storage.backends import DirCollectionBackend
    dd = os.path.join(d, "dircoll")
    db = DirCollectionBackend(dd, readonly=False, ext=".dat")
    with db.writing():
        for k_, v_ in (("lig.1", b"one"), ("lig.2", b"two"), ("lig", b"zero"), ("sub.7.x", b"seven")):
            db.put(k_, v_)
    with db.reading():
        ks = sorted(db.keys())
        vals = {k_: db.get(k_) for k_ in ks}
    if ks != sorted(["lig.1", "lig.2", "lig", "sub.7.x"]) or vals.get("lig.1") != b"one" or vals.get("lig.2") != b"two" or vals.get("lig") != b"zero":
        bad.append(f"directory-backed collection: keys with dots collide or come back truncated: {vals}")
    if len({str(db.get_path(k_)) for k_ in ("lig.1", "lig.2", "lig", "sub.7.x")}) != 4:
        bad.append("directory-backed collection: different keys map to the same file")
except BaseException as e:
    bad.append(f"directory-backed collection raised {type(e).__name__}: {e}")
if bad:
    print("REPRODUCED:", "; ".join(bad[:3]))
    sys.exit(0)
print("not reproduced")
sys.exit(1)
