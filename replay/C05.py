"""Replay of a C05 counterexample on the real Molecule/Structure classes (run by /venv/bin/python).
Builds a molecule per the witness, performs the edit, and checks the class invariant of the statement
against a reference model keyed by atom identity.  Exit 0 + 'REPRODUCED' when a clause is violated."""
import sys, json
import numpy as np
import molli as ml

doc = json.load(open(sys.argv[1]))
w = doc["witness"]


def build(kind, k, elements=None, bonds=((0, 1), (1, 2))):
    cls = getattr(ml, kind)
    m = cls()
    ref = {}
    for i in range(k):
        el = (elements[i] if elements and i < len(elements) and isinstance(elements[i], int) else [6, 8, 7, 1][i % 4])
        a = ml.Atom(ml.Element(max(0, min(118, el))), label=f"L{i}")
        c = [float(i), float(i) + 0.5, -float(i)]
        if kind == "Molecule":
            m.add_atom(a, c, 0.1 * (i + 1))
            ref[id(a)] = (c, 0.1 * (i + 1))
        else:
            m.add_atom(a, c)
            ref[id(a)] = (c, None)
    for p, q in bonds:
        if p < k and q < k:
            m.connect(p, q)
    return m, ref


def wf(m, ref, skip_charge_of=()):
    bad = []
    n = len(m.atoms)
    if m.coords.shape != (n, 3):
        bad.append(f"{n} atoms but coords shape {m.coords.shape}")
    if isinstance(m, ml.Molecule):
        q = m.atomic_charges
        if q.shape != (n,):
            bad.append(f"{n} atoms but charges shape {q.shape}")
        elif q.dtype == object or any(x is None for x in q.tolist()):
            bad.append(f"partial charges are not numeric: dtype={q.dtype}, values={q.tolist()}")
    for j, a in enumerate(m.atoms):
        if id(a) in ref and m.coords.shape == (n, 3):
            c, ch = ref[id(a)]
            if c is not None and not np.allclose(m.coords[j], c, equal_nan=True):
                bad.append(f"atom {a.label} lost its coordinate: {m.coords[j].tolist()} != {c}")
            if ch is not None and isinstance(m, ml.Molecule) and m.atomic_charges.shape == (n,) and m.atomic_charges.dtype != object:
                if abs(m.atomic_charges[j] - ch) > 1e-9:
                    bad.append(f"atom {a.label} lost its charge: {m.atomic_charges[j]} != {ch}")
        try:
            if a.parent is not m:
                bad.append(f"atom {j} parent is not the molecule")
            if a.idx != j:
                bad.append(f"atom {j} reports idx {a.idx}")
        except BaseException as e:
            bad.append(f"atom {j} parent/idx raised {type(e).__name__}")
    for b in m.bonds:
        if b.a1 not in m.atoms or b.a2 not in m.atoms:
            bad.append("bond joins an atom outside the molecule")
        if b.parent is not m:
            bad.append("bond parent is not the molecule")
    return bad


op = w.get("op")
kind = w.get("kind", "Molecule")
k = int(w.get("k", 3))
bad = []
if op == "add_atom":
    m, ref = build(kind, k)
    before = (list(m.atoms), m.coords.copy())
    a = ml.Atom("N", label="new")
    cl = w.get("coord_len", 3)
    coord = [[1.0, 2.0, 3.0]] if cl == "1x3" else [[1.0], [2.0], [3.0]] if cl == "3x1" else [1.0, 2.0, 3.0][: int(cl)]
    try:
        if kind == "Molecule" and w.get("charge") == "given":
            m.add_atom(a, coord, 0.25)
            ref[id(a)] = (coord, 0.25)
        else:
            (m.add_atom(a, coord, None) if kind == "Molecule" else m.add_atom(a, coord))       # "no charge known"
            ref[id(a)] = (coord, None)
        print("add_atom returned")
    except BaseException as e:
        print("add_atom raised", type(e).__name__)
        if list(m.atoms) != before[0]:
            bad.append(f"failed add_atom changed the atom list ({len(before[0])} -> {len(m.atoms)} atoms)")
    bad += wf(m, ref)
elif op == "new_atom":
    m, ref = build("Molecule", k)
    a = m.new_atom(ml.Element.C)
    ref[id(a)] = ([0, 0, 0], None)
    bad += wf(m, ref)
elif op == "del_atom":
    els = w.get("elements")
    m, ref = build(kind, k, els)
    how = w.get("how")
    atoms = list(m.atoms)
    if how == "element":
        e = w.get("e")
        x = ml.Element(e if isinstance(e, int) and 0 <= e <= 118 else atoms[-1].element)
        expect = next((a for a in atoms if a.element == x), None)
    elif how == "int":
        x = int(w.get("i") or 0)
        expect = atoms[x] if -k <= x < k else None
    elif how == "str":
        le = w.get("labels_equal") or []
        pos = le.index(True) if True in le else 0
        x = atoms[pos].label
        expect = atoms[pos]
    else:
        x = atoms[0]
        expect = x
    try:
        m.del_atom(x)
        print("del_atom returned")
        if expect is None:
            bad.append("del_atom succeeded although no atom matches")
        elif expect in m.atoms or len(m.atoms) != k - 1:
            bad.append(f"del_atom({x!r}) did not remove the atom it denotes")
    except BaseException as ex:
        print("del_atom raised", type(ex).__name__, ex)
        if expect is not None:
            bad.append(f"del_atom({x!r}) raised {type(ex).__name__} although a matching atom exists")
        if list(m.atoms) != atoms:
            bad.append("failed del_atom changed the atom list")
    bad += wf(m, ref)
elif op in ("append_bond", "append_bonds", "extend_bonds"):
    if w.get("parent_elsewhere"):
        m, ref = build(kind, 3, bonds=((0, 1),))
        other = ml.Promolecule(list(m.atoms), copy_atoms=False)      # re-points the parent references of m's own atoms
        a2 = m.atoms[2]
    elif w.get("formerly_own"):
        m, ref = build(kind, 4, bonds=((0, 1),))
        a2 = m.atoms[3]
        m.del_atom(a2)                      # deleted earlier in the history, now bonded again
        ref.pop(id(a2), None)
    else:
        m, ref = build(kind, 3, bonds=((0, 1),))
        a2 = ml.Atom("Cl", label="foreign") if w.get("foreign") else m.atoms[2]
    b1 = ml.Bond(m.atoms[1], a2)
    if op == "append_bond":
        m.append_bond(b1)
    elif op == "append_bonds":
        m.append_bonds(b1, ml.Bond(m.atoms[0], m.atoms[2]))
    else:
        m.extend_bonds(x for x in [b1, ml.Bond(m.atoms[0], m.atoms[2])])        # a one-shot iterator
    for b in m.bonds:
        if b.parent is not m:
            bad.append("a bond added to the molecule does not report the molecule as its parent")
            break
    for b in m.bonds:
        if not any(b.a1 is x for x in m.atoms) or not any(b.a2 is x for x in m.atoms):
            bad.append("a bond of the molecule ends on an atom that is not in the molecule")
    bad += wf(m, ref)
elif op in ("connect", "del_bond"):
    m, ref = build("Molecule", 3)
    if op == "connect":
        m.connect(int(w.get("i") or 0), int(w.get("j") or 0))
    else:
        m.del_bond(m.bonds[0])
    bad += wf(m, ref)
else:
    print("unknown op", op)
    sys.exit(1)
if bad:
    print("REPRODUCED:", "; ".join(bad[:4]))
    sys.exit(0)
print("not reproduced")
sys.exit(1)
