"""Replay of a C03 counterexample: build the crash image on disk, reopen it with the real UKVFile,
check the clauses of the statement.  Exit 0 + 'REPRODUCED' when one is violated.
`--search <label> <out.json> <seed> <tier>`: bounded search over crash offsets on the real code."""
import sys, json, os, tempfile, struct, itertools
from molli.storage.ukvfile import UKVFile


def cap(x, lo, hi):
    try:
        x = int(x)
    except Exception:
        x = lo
    return max(lo, min(hi, x))


def build(n, sizes=None):
    d = tempfile.mkdtemp()
    p = os.path.join(d, "t.ukv")
    ref = {}
    with UKVFile(p, "w", h1=b"TESTH1", h2=b"comment", b0=b"descr") as f:
        for i in range(n):
            k, v = b"k%d" % i, bytes([65 + i]) * ((sizes[i] if sizes else i + 1))
            f.put(k, v)
            ref[k] = v
    return p, ref


def check_image(p, ref, mode, torn_key=None):
    """returns list of violated clauses"""
    bad = []
    size = os.path.getsize(p)
    try:
        h = UKVFile(p, mode)
    except BaseException as e:
        return [f"reopen raised {type(e).__name__}: {e}"]
    keys = sorted(h.keys())
    if keys != sorted(ref):
        bad.append(f"listing {keys} != complete records {sorted(ref)}")
    for k, v in ref.items():
        try:
            if h.get(k) != v:
                bad.append(f"committed record {k} damaged")
        except BaseException as e:
            bad.append(f"committed record {k} unreadable: {type(e).__name__}")
    for k in keys:
        if k not in ref:
            r = h._toc[k]
            if r.end > size:
                bad.append(f"torn record {k!r} listed: ends at {r.end} > file size {size}")
    if h._eof is not None and h._eof > size:
        bad.append(f"_eof {h._eof} > file size {size}")
    if mode == "a" and not bad:
        h.put(b"new", b"N" * 7)
        h.close()
        with UKVFile(p, "r") as g:
            want = dict(ref)
            want[b"new"] = b"N" * 7
            if sorted(g.keys()) != sorted(want):
                bad.append(f"after recovery+put listing is {sorted(g.keys())}")
            else:
                for k, v in want.items():
                    if g.get(k) != v:
                        bad.append(f"after recovery+put record {k} reads back wrong")
    else:
        h.close()
    return bad


def crash_image(n, tail, klen, vlen):
    p, ref = build(n)
    rec = struct.pack(">BI", klen, vlen) + b"T" * klen + b"t" * vlen
    with open(p, "ab") as f:
        f.write(rec[:tail])
    return p, ref


if sys.argv[1] == "--search":
    label, out, seed, tier = sys.argv[2], sys.argv[3], int(sys.argv[4]), sys.argv[5]
    for n in (0, 1, 2):
        for klen, vlen in ((1, 0), (3, 9), (0, 4)):
            total = 5 + klen + vlen
            for tail in range(1, total):
                for mode in ("r", "a"):
                    p, ref = crash_image(n, tail, klen, vlen)
                    bad = check_image(p, ref, mode)
                    if bad:
                        json.dump({"witness": {"op": "crash-image", "n": n, "tail": tail, "torn_klen": klen, "torn_vlen": vlen,
                                               "mode": mode, "signature": "torn-tail"}, "violated": bad}, open(out, "w"), indent=1)
                        print("REPRODUCED:", bad[0])
                        sys.exit(0)
    # a torn value whose bytes themselves look like a record: visible only if the torn tail survives recovery
    for n in (0, 1):
        p, ref = build(n)
        inner = struct.pack(">BI", 1, 1) + b"Zz"
        val = b"v" * 9 + inner + b"\x00" * 3
        rec = struct.pack(">BI", 1, len(val) + 1) + b"T" + val
        open(p, "ab").write(rec)            # complete value bytes minus the last one => torn
        bad = check_image(p, ref, "a")
        if bad:
            json.dump({"witness": {"op": "crash-image-crafted", "n": n, "signature": "torn-tail"}, "violated": bad}, open(out, "w"), indent=1)
            print("REPRODUCED:", bad[0])
            sys.exit(0)
    print("no failing input found in the bounded search")
    sys.exit(1)

doc = json.load(open(sys.argv[1]))
w = doc["witness"]
n = cap(w.get("n"), 0, 4)
if w.get("op") == "crash-image-crafted":
    p, ref = build(n)
    inner = struct.pack(">BI", 1, 1) + b"Zz"
    val = b"v" * 9 + inner + b"\x00" * 3
    open(p, "ab").write(struct.pack(">BI", 1, len(val) + 1) + b"T" + val)
    bad = check_image(p, ref, "a")
elif w.get("op") == "any-file":
    # arbitrary bytes after a valid header: try a few garbage tails
    bad = []
    for garbage in (b"\x05\x00\x00\x00\x64abcdeXYZ", b"\xff" * 7, b"\x01\x00\x00\x10\x00k"):
        p, ref = build(1)
        open(p, "ab").write(garbage)
        h = UKVFile(p, "r")
        size = os.path.getsize(p)
        for k, r in h._toc.items():
            if r.end > size:
                bad.append(f"record {k!r} ends at {r.end} > file size {size}")
        if h._eof > size:
            bad.append(f"_eof {h._eof} > size {size}")
        h.close()
else:
    klen = cap(w.get("torn_klen"), 0, 255)
    vlen = cap(w.get("torn_vlen"), 0, 5000)
    tail = cap(w.get("tail"), 1, 5 + klen + vlen - 1) if 5 + klen + vlen > 1 else 1
    mode = w.get("mode", "r")
    p, ref = crash_image(n, tail, klen, vlen)
    print(f"crash image: {n} complete records + {tail} of {5 + klen + vlen} bytes of a torn record, reopened in mode {mode!r}")
    bad = check_image(p, ref, mode)
if bad:
    print("REPRODUCED:", "; ".join(bad[:4]))
    sys.exit(0)
print("not reproduced")
sys.exit(1)
